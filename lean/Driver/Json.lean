import Vflow.Model.JsonOut
/-! line protocol: `json <ipfix|nf9> <agent-addr-hex> <h1,h2,…> <rec;rec;…|->`,
rec = `field|field|…`, field = `id/ent=kind:payload[:ftext-hex]` -/
namespace Driver
open Vflow

def parseVal (kind payload : String) : Option Val :=
  match kind with
  | "bool" => some (.bool (payload == "true"))
  | "u8" => payload.toNat?.map .u8 | "u16" => payload.toNat?.map .u16
  | "u32" => payload.toNat?.map .u32 | "u64" => payload.toNat?.map .u64
  | "i8" => payload.toInt?.map .i8 | "i16" => payload.toInt?.map .i16
  | "i32" => payload.toInt?.map .i32 | "i64" => payload.toInt?.map .i64
  | "f32" => payload.toNat?.map .f32 | "f64" => payload.toNat?.map .f64
  | "mac" => some (.mac (unhex payload)) | "str" => some (.str (unhex payload))
  | "ip" => some (.ip (unhex payload)) | "raw" => some (.raw (unhex payload))
  | _ => none

def parseField (s : String) : Option JField :=
  match s.splitOn "=" with
  | [ie, v] =>
    match ie.splitOn "/", v.splitOn ":" with
    | [i, e], kind :: payload :: rest =>
      match i.toNat?, e.toNat?, parseVal kind payload with
      | some i, some e, some v => some ⟨i, e, v, (rest.head?.map unhex).getD []⟩
      | _, _, _ => none
    | _, _ => none
  | _ => none

def parseRecs (s : String) : Option (List (List JField)) :=
  if s = "-" then some [] else
  (s.splitOn ";").mapM fun r => if r = "" then some [] else (r.splitOn "|").mapM parseField

def jsonLine (proto agent hdr recs : String) : String :=
  match (hdr.splitOn ",").mapM String.toNat?, parseRecs recs with
  | some h, some rs =>
    let a := ipBytes (if agent = "-" then [] else unhex agent)
    let out := if proto = "ipfix" then Ipfix.marshal a h rs else V9.marshal a h rs
    hex out
  | _, _ => "bad-op"

end Driver
