import Vflow.Model.SflowJson
/-! line protocol: `sflow <filter-csv|-> <datagram-hex|->`  →  the `json.Marshal` text of the decoded
datagram (ColTime 0), `err <class>`, `jsonerr`, `panic` or `fuel`;
`dissect <proto> <header-hex|->` → the packet JSON, `err <class>` or `panic`. -/
namespace Driver
open Vflow Vflow.Sflow

def sflowLine (f d : String) : String :=
  let filter := if f == "-" then [] else (f.splitOn ",").filterMap String.toNat?
  let bs := if d == "-" then [] else unhex d
  match decode filter bs with
  | .ok dg => ((Json.sflowJson? dg).map Json.text).getD "jsonerr"
  | .err e => "err " ++ Json.errClass e
  | .panic => "panic"
  | .fuel => "fuel"

def dissectLine (p h : String) : String :=
  let bs := if h == "-" then [] else unhex h
  match Packet.dissect bs p.toNat! with
  | .ok pk => Json.text (Spec.render (Json.pktTree pk))
  | .err e => "err " ++ Json.errClass e
  | .panic => "panic"
  | .fuel => "fuel"

end Driver
