import Vflow.Model.Ipfix
import Vflow.Model.V9
/-! line protocol: `ipfix <addrhex> <datagramhex>` / `nf9 <addrhex> <datagramhex>`; `new` resets the caches -/
namespace Driver
open Vflow

def showRec (r : Record) : String :=
  "[" ++ ",".intercalate (r.map fun f => s!"{f.id}/{f.ent}={f.val.canon}") ++ "]"

def showResult (x : Except Err (Hdr × List Record × List Err)) : String :=
  match x with
  | .error .fuel => "fuel"
  | .error e => "nil " ++ e.name
  | .ok (h, recs, errs) =>
    "msg " ++ " ".intercalate (h.map toString) ++ " errs=" ++ ",".intercalate (errs.map Err.name) ++
      " recs=" ++ "".intercalate (recs.map showRec)

end Driver
