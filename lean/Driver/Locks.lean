import Vflow.Model.LockIR
import Vflow.Gen.LockRegions
/-! line protocol: `cachestress <seed> <goroutines> <overlap%> <ops> <ms>` (IPFIX cache) and
`cachestress9 …` (NetFlow v9 cache); see `ipfix/verif_cache_test.go`.

The implementation side prints `ok` when no observation violated the oracle. The model side builds
a system of threads whose programs are the lock regions *as extracted from the current source*
(`Vflow.Gen.LockRegions`): inserts, lookups and dumps on keys derived from the seed, runs it under
one adversarial schedule per thread and 16 pseudo-random ones with the executable schedulers of
`Model/Locks.lean`, and prints `ok` when
every schedule finishes with no race state and no deadlock, else `race` / `deadlock` / `fuel`
(`unrecognised` when a region cannot be instantiated). -/
namespace Driver
open Vflow Vflow.Locks

def lcg (x : Nat) : Nat := (x * 6364136223846793005 + 1442695040888963407) % 18446744073709551616

/-- programs of one model thread: `calls` calls chosen by the generator state -/
def threadProg (n : Nat) (ins ret dump : Region) (overlap : Nat) (tid : Nat) :
    Nat → Nat → List Act → Option (List Act × Nat)
  | 0, g, acc => some (acc, g)
  | c+1, g, acc =>
    let g1 := lcg g
    let g2 := lcg g1
    let key := if (g1 / 65536) % 100 < overlap then (g2 / 65536) % 8 else 8 + tid * 4 + (g2 / 65536) % 4
    let s := key % n
    let kind := (g1 / 4294967296) % 8
    let r := if tid = 0 then dump else if kind < 4 then ins else ret
    match progOf n s key (g2 % 1000) r with
    | none => none
    | some p => threadProg n ins ret dump overlap tid c g2 (acc ++ p)

def buildSys (n : Nat) (ins ret dump : Region) (threads overlap seed : Nat) : Option Sys :=
  let rec go : Nat → Nat → Nat → List Thread → Option (List Thread)
    | 0, _, _, acc => some acc.reverse
    | t+1, tid, g, acc =>
      match threadProg n ins ret dump overlap tid 2 g [] with
      | none => none
      | some (p, g') => go t (tid + 1) g' (⟨⟨[], []⟩, p, []⟩ :: acc)
  (go threads 0 (lcg (seed + 1)) []).map fun ts => ⟨ts, fun _ _ => none⟩

def runSchedules (σ : Sys) (seed : Nat) : Nat → Verdict
  | 0 => .ok
  | k+1 =>
    let pick := fun (step : Nat) => lcg (lcg (seed * 1000003 + k * 7919 + step)) / 65536
    match (schedule pick 4000 0 σ).1 with
    | .ok => runSchedules σ seed k
    | v => v

/-- one adversarial schedule per thread (see `scheduleFreeze`) -/
def runFreezes (σ : Sys) : Nat → Verdict
  | 0 => .ok
  | i+1 =>
    match (scheduleFreeze i 4000 σ).1 with
    | .ok => runFreezes σ i
    | v => v

def locksLine (nf9 : Bool) (seed g overlap : String) : String :=
  match seed.toNat?, g.toNat?, overlap.toNat? with
  | some seed, some g, some overlap =>
    let (n, ins, ret, dump) :=
      if nf9 then (Gen.nf9ShardNo, Gen.nf9Insert, Gen.nf9Retrieve, Gen.nf9Dump)
      else (Gen.ipfixShardNo, Gen.ipfixInsert, Gen.ipfixRetrieve, Gen.ipfixDump)
    match buildSys n ins ret dump (min g 6) overlap seed with
    | none => "unrecognised"
    | some σ =>
      let v := match runFreezes σ σ.threads.length with
        | .ok => runSchedules σ seed 16
        | v => v
      match v with
      | .ok => "ok" | .race => "race" | .deadlock => "deadlock" | .fuel => "fuel"
  | _, _, _ => "bad-op"

end Driver
