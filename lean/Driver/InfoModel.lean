import Vflow.Model.Flow
/-! line protocol: `elem <pen> <id>` → `FieldID name typeIndex` of the (generated) built-in table, or `none` -/
namespace Driver
open Vflow

def elemLine (pen id : String) : String :=
  match pen.toNat?, id.toNat? with
  | some p, some i =>
    match Gen.InfoModelTbl.builtin.find? (fun r => r.1 = p ∧ r.2.1 = i) with
    | some r => s!"{r.2.2.1} {r.2.2.2.1} {typeIndex r.2.2.2.2}"
    | none => "none"
  | _, _ => "bad-op"

end Driver
