"""End-to-end stop/start cycles of the built vflow binary (C15; also used for liveness checks).

Each cycle: start the binary on private ports / cache files / pid file, send IPFIX and NetFlow v9
templates and data from several loopback exporter addresses in a given traffic pattern, deliver
SIGTERM or SIGINT at a random offset while traffic is in flight, and check
  exit status 0, exit latency, stderr free of panic / fatal error,
  both cache files are complete JSON documents holding every template sent >= 300 ms before the signal,
then restart on the same cache files, send data only (no templates) and require it to be decoded at
once (the published JSON appears in the verbose log), and stop again.

Further cycles of C15: stalled stops (the process frozen during the grace period, stall_cycle), early stops (the signal
arrives while run() is still loading a large cache file of the previous run, early_stop_cycle) and same-PID restarts
(stop/start in PID namespaces with the pid file kept, same_pid_cycle), start-up stops (the signal arrives while main is
still reading its options, startup_stop_cycle).
"""
import json, os, random, re, signal, socket, struct, subprocess, sys, time, shutil, urllib.request
import check as C

VFLOW = os.path.join(C.BIN, "vflow")


def build_binary(race=False):
    out = VFLOW + ("-race" if race else "")
    cmd = ["go", "build"] + (["-race"] if race else []) + ["-o", out, "./vflow"]
    rc, o, e = C.sh(cmd, cwd=C.REPO, env=C.GOENV)
    return (rc == 0), out, e


def free_ports(n):
    """n port numbers that were free a moment ago: UDP ports for the listeners; the fifth is the port of the statistics
    HTTP server and is therefore probed as a TCP port (a UDP probe says nothing about it, and a collector whose HTTP
    server cannot bind ends itself with logger.Fatal after its UDP sockets were reported ready)"""
    socks, ports = [], []
    for i in range(n):
        s = socket.socket(socket.AF_INET, socket.SOCK_STREAM if i == 4 else socket.SOCK_DGRAM)
        s.bind(("127.0.0.1", 0))
        socks.append(s)
        ports.append(s.getsockname()[1])
    for s in socks:
        s.close()
    return ports


def fnv1(bs):
    h = 2166136261
    for b in bs:
        h = (h * 16777619) & 0xffffffff
        h ^= b
    return h


def cache_key(ip4, tid):
    """(shard index, key text) under which the cache files hold the template of exporter ip4 / id tid: the shard is
    picked by the 32-bit FNV-1 of addr||id, the key inside the shard's map is the hex text of addr||id (K1 / F26)"""
    addr = bytes(10) + b"\xff\xff" + bytes(ip4)        # the dual-stack listener reports IPv4-mapped addresses
    octets = addr + struct.pack(">H", tid)
    return fnv1(octets) % 32, octets.hex()


# a small set of fixed-length elements: (id, length)
ELEMS = [(8, 4), (12, 4), (1, 8), (2, 8), (7, 2), (11, 2), (4, 1), (10, 4), (14, 4), (152, 8)]


def tpl_fields(rng):
    k = rng.randint(2, 5)
    return [ELEMS[i] for i in sorted(rng.sample(range(len(ELEMS)), k))]


def published_lines(log):
    """the DISTINCT published messages the verbose log shows.  The NetFlow v9 / v5 workers print their encode buffer
    after every datagram that yields a message — also one without data, for which the buffer still holds the previous
    datagram's JSON — so a repeated line is not a second publication (every datagram of a cycle carries its own sequence
    number, so two publications never print the same line)."""
    seen, out = set(), []
    for line in log.split("\n"):
        j = line.find('{"AgentID"')
        if j < 0 or '"DataSets":[[' not in line:
            continue
        t = line[j:]
        if t not in seen:
            seen.add(t)
            out.append(t)
    return out


def ipfix_msg(sets, seq=1):
    body = b"".join(sets)
    return struct.pack(">HHIII", 10, 16 + len(body), int(time.time()), seq, 7) + body


def v9_msg(sets, seq=1):
    body = b"".join(sets)
    return struct.pack(">HHIIII", 9, 1, 1000, int(time.time()), seq, 7) + body


def tpl_set(proto, tid, fields, nscope=0):
    if nscope:
        # options template: the first nscope fields are the scope
        specs = b"".join(struct.pack(">HH", i, l) for i, l in fields)
        if proto == "ipfix":
            rec = struct.pack(">HHH", tid, len(fields), nscope) + specs
            return struct.pack(">HH", 3, 4 + len(rec)) + rec
        rec = struct.pack(">HHH", tid, 4 * nscope, 4 * (len(fields) - nscope)) + specs
        rec += bytes(-(4 + len(rec)) % 4)
        return struct.pack(">HH", 1, 4 + len(rec)) + rec
    rec = struct.pack(">HH", tid, len(fields)) + b"".join(struct.pack(">HH", i, l) for i, l in fields)
    return struct.pack(">HH", 2 if proto == "ipfix" else 0, 4 + len(rec)) + rec


def data_set(tid, fields, rng, nrec=2, pad=None):
    """a data set of nrec records; pad = octets of set padding (None: half of the sets get 1..3 zero octets, fewer than
    the record length, as an exporter aligning its sets to 4 octets sends them)"""
    rl = sum(l for _, l in fields)
    recs = b"".join(bytes(rng.randrange(256) for _ in range(rl)) for _ in range(nrec))
    if pad is None:
        pad = rng.randint(1, min(3, rl - 1)) if rl > 1 and rng.random() < 0.5 else 0
    return struct.pack(">HH", tid, 4 + len(recs) + pad) + recs + bytes(pad)


class Vflow:
    def __init__(self, wdir, ports, binary, workers=4, extra_args=(), pidns=False, ready=None):
        """pidns: the collector is started the way the shipped docker-compose entrypoint starts it (`/bin/sh -c "sleep … &&
        vflow"`) inside a PID namespace of its own (unshare --pid --fork --mount-proc): it gets the same small PID on every
        start, as in a container. ready: a marker (bytes) of the log; start() then returns as soon as that line has been
        logged instead of waiting for all four listeners."""
        self.wdir, self.ports, self.binary, self.workers, self.extra_args = wdir, ports, binary, workers, list(extra_args)
        self.pidns, self.ready = pidns, ready
        # listeners that report "… is running (UDP": four, less those switched off on the command line
        self.expect_running = 4 - sum(1 for a in self.extra_args if a in ("-ipfix-enabled=false", "-netflow9-enabled=false",
                                                                          "-netflow5-enabled=false", "-sflow-enabled=false"))
        self.proc = None
        self.errf = None

    def start(self, tries=4):
        """start the collector and wait until its four UDP sockets are bound. The ports are picked by binding and
        closing them first, so another process (16 cycles run in parallel) can take one in between: a start that does
        not become ready is retried on fresh ports. Returns True, False (could not be started: an artefact of the
        harness, no verdict) or "crash" (the process died with a panic / fatal error: that is a finding)."""
        for attempt in range(tries):
            if attempt:
                self.ports = free_ports(5)
            r = self._start_once()
            if r is True:
                return True
            if self.proc and self.proc.poll() is None:
                self.proc.kill()
                self.proc.wait()
            self.errf.close()
            log = self.log()
            if any(w in log for w in ("panic:", "fatal error", "DATA RACE")):
                return "crash"
            time.sleep(0.2 * (attempt + 1))
        return False

    def _start_once(self):
        p = self.ports
        self.errpath = os.path.join(self.wdir, "stderr-%d.log" % int(time.time() * 1000000))
        self.errf = open(self.errpath, "wb")
        args = [self.binary, "-config", os.path.join(self.wdir, "absent.conf"),
                "-pid-file", os.path.join(self.wdir, "vflow.pid"),
                "-ipfix-port", str(p[0]), "-sflow-port", str(p[1]), "-netflow5-port", str(p[2]), "-netflow9-port", str(p[3]),
                "-stats-http-addr", "127.0.0.1", "-stats-http-port", str(p[4]), "-stats-format", "restful",
                "-ipfix-tpl-cache-file", os.path.join(self.wdir, "ipfix.cache"),
                "-netflow9-tpl-cache-file", os.path.join(self.wdir, "nf9.cache"),
                "-producer-enabled=false", "-dynamic-workers=false", "-verbose=true", "-ipfix-rpc-enabled=false",
                "-ipfix-workers", str(self.workers), "-netflow9-workers", str(self.workers), "-netflow5-workers", "2", "-sflow-workers", "2"] + self.extra_args
        if self.pidns:
            args = unshare_cmd() + ["/bin/sh", "-c", 'sleep 0.2 && "$0" "$@"'] + args
        self.proc = subprocess.Popen(args, stdout=self.errf, stderr=self.errf, cwd=self.wdir)
        # ready when the four UDP sockets are bound ("… is running (UDP: listening …" is logged after ListenUDP)
        t0 = time.time()
        while time.time() - t0 < 10:
            if self.proc.poll() is not None:
                return False
            try:
                lg = open(self.errpath, "rb").read()
                if (self.ready in lg) if self.ready else (lg.count(b"is running (UDP") >= self.expect_running):
                    return True
            except OSError:
                pass
            time.sleep(0.001 if self.ready else 0.03)
        return False

    def pid(self):
        """the collector's process id as this process sees it (inside a PID namespace: found by its command line)"""
        if not self.pidns:
            return self.proc.pid
        marker = os.path.join(self.wdir, "vflow.pid").encode()
        for d in os.listdir("/proc"):
            if d.isdigit():
                try:
                    cl = open("/proc/%s/cmdline" % d, "rb").read().split(b"\0")
                except OSError:
                    continue
                if cl and cl[0] == self.binary.encode() and marker in cl:
                    return int(d)
        return None

    def send(self, sig):
        p = self.pid()
        if p is not None:
            try:
                os.kill(p, sig)
            except ProcessLookupError:
                pass

    def stats(self):
        try:
            return json.loads(urllib.request.urlopen("http://127.0.0.1:%d/flow" % self.ports[4], timeout=1).read())
        except Exception:
            return None

    def stop(self, sig, stall_s=0.0):
        """deliver the signal and wait for the exit. With `stall_s` the whole process is frozen (SIGSTOP) as soon as the
        first shutdown() has logged that it is stopping (at the latest 100 ms after the signal) and thawed (SIGCONT)
        `stall_s` seconds later: what a VM pause, a cgroup freeze or a debugger does to a collector that is shutting down."""
        t0 = time.time()
        self.send(sig)
        if stall_s:
            while time.time() - t0 < 0.1:
                try:
                    if b"stopping " in open(self.errpath, "rb").read():
                        break
                except OSError:
                    pass
                time.sleep(0.0005)
            self.send(signal.SIGSTOP)
            time.sleep(stall_s)
            self.send(signal.SIGCONT)
        try:
            rc = self.proc.wait(timeout=15)
        except subprocess.TimeoutExpired:
            self.proc.kill()
            self.proc.wait()
            rc = "timeout"
        self.errf.close()
        return rc, time.time() - t0

    def log(self):
        return open(self.errpath, "rb").read().decode("utf-8", "replace")


def sender(ip_last):
    s = socket.socket(socket.AF_INET, socket.SOCK_DGRAM)
    s.bind(("127.0.0.%d" % ip_last, 0))
    return s


def cycle(n, seed, binary, pattern=None):
    """one stop/start cycle; returns (impl_line, verdict, sample)"""
    rng = random.Random(seed * 100003 + n)
    pattern = pattern or rng.choice(["idle", "steady", "burst", "burst", "steady", "lull", "lull"])
    sig = rng.choice([signal.SIGTERM, signal.SIGTERM, signal.SIGINT])
    wdir = os.path.join(C.WORK, "e2e-%d-%d-%d" % (os.getpid(), seed, n))
    shutil.rmtree(wdir, ignore_errors=True)
    os.makedirs(wdir)
    vf = Vflow(wdir, free_ports(5), binary)
    sample = {"pattern": pattern, "signal": sig.name}
    try:
        st0 = vf.start()
        if st0 == "crash":
            return "start-crashed", "fail:start the collector crashed while starting: " + vf.log()[-300:].replace("\n", " | "), sample
        if not st0:
            # four attempts on fresh ports failed without a crash: the harness could not run this cycle (no verdict)
            return "not-started", "", sample
        exps = [sender(k) for k in range(2, 2 + rng.randint(1, 5))]
        must = []          # (proto, ip_last, tid, fields) acknowledged >= 300 ms before the signal
        late = []
        seq = 1

        next_tid = {}
        n_sent = {"ipfix": 0, "nf9": 0}

        def announce(bucket, late_phase=False):
            nonlocal seq
            s = exps[rng.randrange(len(exps))]
            ipl = int(s.getsockname()[0].split(".")[3])
            proto = rng.choice(["ipfix", "nf9"])
            # each (protocol, exporter) key is announced once: with several workers two definitions of one key sent
            # back to back may be applied in either order, which is outside this property
            base = 2000 if late_phase else 256
            tid = next_tid.get((proto, ipl, late_phase), base)
            next_tid[(proto, ipl, late_phase)] = tid + 1
            fields = tpl_fields(rng)
            # one in three is an options template (scope fields first)
            nscope = rng.randint(1, len(fields) - 1) if rng.random() < 0.34 else 0
            msg = (ipfix_msg if proto == "ipfix" else v9_msg)([tpl_set(proto, tid, fields, nscope)], seq)
            seq += 1
            s.sendto(msg, ("127.0.0.1", vf.ports[0] if proto == "ipfix" else vf.ports[3]))
            n_sent[proto] += 1
            # a later announcement under the same key replaces the earlier one
            bucket[:] = [m for m in bucket if not (m[0] == proto and m[1] == ipl and m[2] == tid)]
            bucket.append((proto, ipl, tid, fields, nscope))

        def data(m):
            nonlocal seq
            proto, ipl, tid, fields, nscope = m
            s = next(x for x in exps if x.getsockname()[0].endswith(".%d" % ipl))
            msg = (ipfix_msg if proto == "ipfix" else v9_msg)([data_set(tid, fields, rng)], seq)
            seq += 1
            s.sendto(msg, ("127.0.0.1", vf.ports[0] if proto == "ipfix" else vf.ports[3]))
            n_sent[proto] += 1

        nt = {"idle": rng.randint(0, 2), "steady": rng.randint(3, 10), "burst": rng.randint(40, 150), "lull": rng.randint(1, 4)}[pattern]
        for _ in range(nt):
            announce(must)
            if pattern == "steady":
                time.sleep(0.01)
                if must and rng.random() < 0.5:
                    data(rng.choice(must))
        # "acknowledged": the collector's own counters say that every datagram sent so far has been decoded (polled
        # for up to 5 s, so that a loaded machine cannot turn a late worker into a lost template), then 350 ms margin
        t_ack = time.time()
        while time.time() - t_ack < 5:
            st = vf.stats()
            if st is None:
                break
            try:
                if st["IPFIX"]["DecodedCount"] >= n_sent["ipfix"] and st["NetflowV9"]["DecodedCount"] >= n_sent["nf9"]:
                    break
            except (KeyError, TypeError):
                break
            time.sleep(0.02)
        time.sleep(0.35)                      # these are "acknowledged before the signal"
        # traffic in flight around the signal: more templates (may or may not make it) and data
        inflight = {"idle": 0, "steady": rng.randint(5, 30), "burst": rng.randint(100, 600), "lull": 0}[pattern]
        for i in range(inflight):
            if rng.random() < 0.3:
                announce(late, True)
                # a late re-announcement of a must-survive key makes the stored definition ambiguous: drop the claim
                must[:] = [m for m in must if not any(l[0] == m[0] and l[1] == m[1] and l[2] == m[2] for l in late)]
            elif must:
                data(rng.choice(must))
        if pattern == "lull":
            # one datagram just before the signal: the reader wakes up and arms a fresh 1 s deadline that is still
            # pending through most of the grace period
            time.sleep(0.3)
            try:
                if must:
                    data(rng.choice(must))
                else:
                    announce(late, True)
            except OSError:
                pass
            time.sleep(0.05)
        else:
            time.sleep(rng.choice([0, 0, 0.001, 0.01, 0.1, 0.5, 0.99, 1.0]))
        # traffic keeps arriving while the collector stops (new templates + data for 1.6 s: across the grace
        # period, the cache dump and the closing of the queues)
        import threading
        stop_bg = threading.Event()

        def background():
            t_end = time.time() + 1.6
            while time.time() < t_end and not stop_bg.is_set():
                try:
                    if rng.random() < 0.5:
                        announce(late, True)
                    elif must:
                        data(rng.choice(must))
                except OSError:
                    pass
                if pattern == "steady":
                    time.sleep(0.002)
        def lull():
            # the link goes quiet at the signal, then single datagrams arrive late in the grace period
            # (the read armed before the signal is still pending: they must be taken and handed over cleanly)
            t0 = time.time()
            for off in sorted(rng.sample([0.52, 0.6, 0.68, 0.76, 0.84], rng.randint(1, 3))):
                time.sleep(max(0, t0 + off - time.time()))
                try:
                    if must:
                        data(rng.choice(must))
                    else:
                        announce(late, True)
                except OSError:
                    pass
        bg = None
        if pattern == "lull":
            bg = threading.Thread(target=lull)
            bg.start()
        elif pattern != "idle":
            bg = threading.Thread(target=background)
            bg.start()
        rc, lat = vf.stop(sig)
        stop_bg.set()
        if bg:
            bg.join()
        log1 = vf.log()
        sample.update({"templates_before_signal": len(must), "in_flight": inflight, "exit": rc, "latency_s": round(lat, 2)})
        bad = [w for w in ("panic:", "fatal error", "DATA RACE", "send on closed channel") if w in log1]
        if rc != 0:
            return "exit=%s" % rc, "fail:exit status %s after %s (latency %.1fs): %s" % (rc, sig.name, lat, log1[-300:].replace("\n", " | ")), sample
        if bad:
            return "exit=0 stderr=%s" % bad[0], "fail:stderr the collector logged %r while stopping: %s" % (bad[0], log1[-300:].replace("\n", " | ")), sample
        if lat > 6.0:
            return "exit=0 slow", "fail:latency exit took %.1fs" % lat, sample
        # cache files
        for proto, fn in (("ipfix", "ipfix.cache"), ("nf9", "nf9.cache")):
            try:
                doc = json.load(open(os.path.join(wdir, fn)))
            except Exception as e:
                return "exit=0 cache-bad", "fail:cachefile %s is not a complete JSON document after the stop: %r" % (fn, e), sample
            if doc.get("ShardNo") != 32 or len(doc.get("Cache") or []) != 32:
                return "exit=0 cache-bad", "fail:cachefile %s does not have 32 shards" % fn, sample
            for m in must:
                if m[0] != proto:
                    continue
                shard, k = cache_key([127, 0, 0, m[1]], m[2])
                ent = (doc["Cache"][shard].get("Templates") or {}).get(k)
                if ent is None:
                    return "exit=0 tpl-missing", "fail:lost template %s exporter 127.0.0.%d id %d announced >=300ms before the signal is not in %s" % (proto, m[1], m[2], fn), sample
                got = [(f["ElementID"], f["Length"]) for f in (ent["Template"].get("ScopeFieldSpecifiers") or []) + (ent["Template"].get("FieldSpecifiers") or [])]
                if got != m[3] or len(ent["Template"].get("ScopeFieldSpecifiers") or []) != m[4]:
                    return "exit=0 tpl-differs", "fail:lost template %s 127.0.0.%d/%d stored as %s, announced as %s" % (proto, m[1], m[2], got, m[3]), sample
        # restart on the same cache files: data only, must be decoded at once
        st1 = vf.start()
        if st1 == "crash":
            return "restart-crashed", "fail:restart the collector crashed when started again on its own cache files: " + vf.log()[-300:].replace("\n", " | "), sample
        if not st1:
            return "not-restarted", "", sample
        probes = must[: 12]
        for m in probes:
            data(m)
        # every probe is either decoded or reported unknown; on a loaded machine that can take longer than the
        # usual few milliseconds, so poll the log (up to 5 s) instead of sleeping a fixed time
        t_probe = time.time()
        while time.time() - t_probe < 5:
            lg = vf.log()
            if len(published_lines(lg)) + lg.count("unknown ipfix template") + lg.count("unknown netflow template") >= len(probes):
                break
            time.sleep(0.05)
        time.sleep(0.1)
        # half of the cycles go on to a THIRD run: in the second run (cache loaded from the file) some of the probed
        # templates are announced again under their ids with another layout (the fields in reverse order), data for them is
        # sent and acknowledged, then the collector is stopped again: the file must now hold the NEW definitions ("every
        # template acknowledged before the signal" — a dump skipped because "nothing new arrived" keeps the old ones: seed C15-h)
        redefined = []
        if rng.random() < 0.5:
            st_b = vf.stats()
            for m in probes[: 4]:
                proto, ipl, tid, fields, nscope = m
                if len(fields) < 2 or fields[::-1] == fields or nscope:
                    continue
                m2 = (proto, ipl, tid, fields[::-1], 0)
                sx = next(x for x in exps if x.getsockname()[0].endswith(".%d" % ipl))
                msg = (ipfix_msg if proto == "ipfix" else v9_msg)([tpl_set(proto, tid, m2[3], 0)], seq)
                seq += 1
                sx.sendto(msg, ("127.0.0.1", vf.ports[0] if proto == "ipfix" else vf.ports[3]))
                redefined.append(m2)
            if redefined and st_b is not None:
                # acknowledged: the counters have moved by the announcements (and then by the data)
                def moved(k):
                    t9 = time.time()
                    while time.time() - t9 < 5:
                        s9 = vf.stats()
                        try:
                            if s9["IPFIX"]["DecodedCount"] + s9["NetflowV9"]["DecodedCount"] >= st_b["IPFIX"]["DecodedCount"] + st_b["NetflowV9"]["DecodedCount"] + k:
                                return True
                        except (KeyError, TypeError):
                            return False
                        time.sleep(0.02)
                    return False
                if not moved(len(redefined)):
                    redefined = []
                else:
                    for m2 in redefined:
                        data(m2)
                    if not moved(2 * len(redefined)):
                        redefined = []
                time.sleep(0.35)
            else:
                redefined = []
        st = vf.stats()
        rc2, lat2 = vf.stop(signal.SIGTERM)
        log2 = vf.log()
        unknown = log2.count("unknown ipfix template") + log2.count("unknown netflow template")
        decoded = len(published_lines(log2))
        sample.update({"probes_after_restart": len(probes), "decoded_after_restart": decoded})
        if rc2 != 0 or any(w in log2 for w in ("panic:", "fatal error")):
            return "exit2=%s" % rc2, "fail:exit second stop: status %s: %s" % (rc2, log2[-300:].replace("\n", " | ")), sample
        try:
            received2 = st["IPFIX"]["UDPCount"] + st["NetflowV9"]["UDPCount"]
        except (KeyError, TypeError):
            received2 = None
        if not unknown and decoded < len(probes) and (received2 is None or received2 < len(probes)):
            # fewer probes arrived than were sent (loopback loss, or no counters to tell): nothing can be concluded
            return "probes-lost", "", sample
        if unknown or decoded < len(probes):
            return "exit=0 restart-undecoded", "fail:restart %d data datagrams sent without templates after the restart, %d decoded, %d reported unknown" % (len(probes), decoded, unknown), sample
        if redefined and not unknown and decoded >= len(probes):
            # third run: data only, for the redefined templates; each must be published with the elements in the NEW order
            st3 = vf.start()
            if st3 == "crash":
                return "restart3-crashed", "fail:restart the collector crashed when started a third time on its own cache files: " + vf.log()[-300:].replace("\n", " | "), sample
            if st3:
                before = set(published_lines(vf.log()))
                for m2 in redefined:
                    data(m2)
                t3 = time.time()
                got3 = []
                while time.time() - t3 < 5:
                    lg3 = vf.log()
                    got3 = [l for l in published_lines(lg3) if l not in before]
                    if len(got3) + lg3.count("unknown ipfix template") + lg3.count("unknown netflow template") >= len(redefined):
                        break
                    time.sleep(0.05)
                st3s = vf.stats()
                vf.stop(signal.SIGTERM)
                try:
                    recv3 = st3s["IPFIX"]["UDPCount"] + st3s["NetflowV9"]["UDPCount"]
                except (KeyError, TypeError):
                    recv3 = None
                sample["redefined_before_second_stop"] = len(redefined)
                if recv3 is not None and recv3 >= len(redefined):
                    wants = {}
                    for proto, ipl, tid, fields, nscope in redefined:
                        wants.setdefault((proto == "ipfix", "127.0.0.%d" % ipl), []).append([e for e, _ in fields])
                    bad3 = None
                    n_ok = 0
                    for l in got3:
                        agent = re.search(r'"AgentID":"([^"]+)"', l)
                        elems = [int(x) for x in re.findall(r'\{"I":(\d+),', l[l.find('"DataSets"'):])]
                        isip = '"ExportTime"' in l
                        cands = wants.get((isip, agent.group(1) if agent else ""), [])
                        # one record per data set here: the element sequence of the line is the record's
                        nrec = l.count("],[") + 1
                        rec = elems[: len(elems) // max(nrec, 1)] if nrec else elems
                        if any(rec == c for c in cands):
                            n_ok += 1
                        elif any(sorted(rec) == sorted(c) for c in cands):
                            bad3 = "exporter %s: published with elements %s, the definition acknowledged before the second stop has them in the order %s" % (agent.group(1) if agent else "?", rec, [c for c in cands if sorted(c) == sorted(rec)][0])
                    sample["decoded_with_redefinition_after_third_start"] = n_ok
                    if bad3:
                        return "exit=0 stale-definition", "fail:restart a template announced again (another layout) and acknowledged in the second run is decoded with its OLD layout after the next restart: " + bad3, sample
        for s in exps:
            s.close()
        return "exited=1 done=1 panic=0 dumped=1", "ok", sample
    finally:
        if vf.proc and vf.proc.poll() is None:
            vf.proc.kill()
        shutil.rmtree(wdir, ignore_errors=True)


# the flood runs in a process of its own (the cycles run as threads of one Python process and would share its
# interpreter lock): argv = source address, seconds, then (port, hex datagram) pairs sent round-robin without pause
FLOOD_SRC = """
import socket, sys, time
s = socket.socket(socket.AF_INET, socket.SOCK_DGRAM)
s.bind((sys.argv[1], 0))
t_end = time.time() + float(sys.argv[2])
dst = [(("127.0.0.1", int(sys.argv[i])), bytes.fromhex(sys.argv[i + 1])) for i in range(3, len(sys.argv), 2)]
k = 0
while k % 256 or time.time() < t_end:
    for a, m in dst:
        try:
            s.sendto(m, a)
        except OSError:
            pass
    k += 1
"""


def v5_msg(nflows=1):
    return struct.pack(">HHIIIIBBH", 5, nflows, 1000, int(time.time()), 0, 1, 0, 0, 0) + bytes(range(48)) * nflows


def sflow_msg():
    # version 5, IPv4 agent 10.0.0.1, sub-agent 0, sequence 1, uptime, no samples
    return struct.pack(">II4sIIII", 5, 1, bytes([10, 0, 0, 1]), 0, 1, 1000, 0)


def stall_cycle(n, seed, binary, params=None):
    """a stop during which the process does not run for a while: the collector is started with `-cpu-cap 1`, all four
    listeners are flooded (NetFlow v5, sFlow, IPFIX and NetFlow v9 data for templates announced and acknowledged
    before), SIGTERM / SIGINT is delivered and the process is frozen (SIGSTOP) for 1.2 .. 1.5 s as soon as shutdown()
    has begun, then thawed while the flood continues. Every 1 s grace period of shutdown() has then elapsed without
    the read loops having run: whatever shutdown() does next races with a read loop that is still in its iteration.
    Checks: exit status 0, no panic / fatal error on stderr, exit within 6 s of the thaw, both cache files complete
    and holding the templates acknowledged before the signal. returns (impl_line, verdict, sample)"""
    rng = random.Random(seed * 100003 + n * 31 + 17)
    params = dict(params or {})
    sig = getattr(signal, params.get("signal") or rng.choice(["SIGTERM", "SIGTERM", "SIGINT"]))
    stall_s = float(params.get("stall_s") or round(rng.uniform(1.2, 1.5), 2))
    cpu_cap = str(params.get("cpu_cap") or 1)
    wdir = os.path.join(C.WORK, "e2e-stall-%d-%d-%d" % (os.getpid(), seed, n))
    shutil.rmtree(wdir, ignore_errors=True)
    os.makedirs(wdir)
    vf = Vflow(wdir, free_ports(5), binary, extra_args=["-cpu-cap", cpu_cap, "-verbose=false"])
    sample = {"pattern": "stall", "signal": sig.name, "stall_s": stall_s, "cpu_cap": cpu_cap,
              "flood": "netflow5 sflow ipfix netflow9"}
    flood = None
    try:
        st0 = vf.start()
        if st0 == "crash":
            return "start-crashed", "fail:start the collector crashed while starting: " + vf.log()[-300:].replace("\n", " | "), sample
        if not st0:
            return "not-started", "", sample
        ipl = 2 + rng.randrange(5)
        s = sender(ipl)
        fields = tpl_fields(rng)
        tid = 256 + rng.randrange(100)
        s.sendto(ipfix_msg([tpl_set("ipfix", tid, fields)], 1), ("127.0.0.1", vf.ports[0]))
        s.sendto(v9_msg([tpl_set("nf9", tid, fields)], 1), ("127.0.0.1", vf.ports[3]))
        t_ack = time.time()
        while time.time() - t_ack < 5:
            st = vf.stats()
            try:
                if st["IPFIX"]["DecodedCount"] >= 1 and st["NetflowV9"]["DecodedCount"] >= 1:
                    break
            except (KeyError, TypeError):
                break
            time.sleep(0.02)
        s.close()
        dgrams = [(vf.ports[2], v5_msg(rng.choice([1, 30]))), (vf.ports[1], sflow_msg()),
                  (vf.ports[0], ipfix_msg([data_set(tid, fields, rng)], 2)), (vf.ports[3], v9_msg([data_set(tid, fields, rng)], 2))]
        # the mix: evenly over the four listeners, or nine in twelve to one of them (a queue that stays full keeps its
        # read loop blocked in the channel send)
        heavy = params.get("heavy", rng.choice(["even", "netflow5", "netflow5", "sflow", "ipfix", "netflow9"]))
        sample["flood"] = "netflow5 sflow ipfix netflow9, mix " + heavy
        if heavy != "even":
            dgrams += [dgrams[["netflow5", "sflow", "ipfix", "netflow9"].index(heavy)]] * 8
        argv = [sys.executable, "-c", FLOOD_SRC, "127.0.0.%d" % ipl, "12"]
        for port, m in dgrams:
            argv += [str(port), m.hex()]
        flood = subprocess.Popen(argv, stdout=subprocess.DEVNULL, stderr=subprocess.DEVNULL)
        time.sleep(0.35 + rng.choice([0, 0.05, 0.2]))
        rc, lat = vf.stop(sig, stall_s=stall_s)
        flood.kill()
        flood.wait()
        log1 = vf.log()
        sample.update({"exit": rc, "latency_after_thaw_s": round(lat - stall_s, 2)})
        bad = [w for w in ("panic:", "fatal error", "DATA RACE", "send on closed channel") if w in log1]
        if rc != 0:
            i = max(log1.find("panic:"), log1.find("fatal error"), 0)
            return "exit=%s" % rc, "fail:exit status %s after %s and a %.2fs stall (exit %.1fs after the thaw): %s" % (
                rc, sig.name, stall_s, lat - stall_s, log1[max(0, i - 200):i + 400].replace("\n", " | ")), sample
        if bad:
            return "exit=0 stderr=%s" % bad[0], "fail:stderr the collector logged %r while stopping: %s" % (bad[0], log1[-300:].replace("\n", " | ")), sample
        if lat - stall_s > 6.0:
            return "exit=0 slow", "fail:latency exit took %.1fs after the thaw" % (lat - stall_s), sample
        for proto, fn in (("ipfix", "ipfix.cache"), ("nf9", "nf9.cache")):
            try:
                doc = json.load(open(os.path.join(wdir, fn)))
            except Exception as e:
                return "exit=0 cache-bad", "fail:cachefile %s is not a complete JSON document after the stop: %r" % (fn, e), sample
            shard, k = cache_key([127, 0, 0, ipl], tid)
            ent = (doc["Cache"][shard].get("Templates") or {}).get(k) if len(doc.get("Cache") or []) == 32 else None
            if ent is None:
                return "exit=0 tpl-missing", "fail:lost template %s exporter 127.0.0.%d id %d acknowledged before the signal is not in %s" % (proto, ipl, tid, fn), sample
            got = [(f["ElementID"], f["Length"]) for f in ent["Template"].get("FieldSpecifiers") or []]
            if got != fields:
                return "exit=0 tpl-differs", "fail:lost template %s 127.0.0.%d/%d stored as %s, announced as %s" % (proto, ipl, tid, got, fields), sample
        return "exited=1 done=1 panic=0 dumped=1 stalled=1", "ok", sample
    finally:
        if flood and flood.poll() is None:
            flood.kill()
            flood.wait()
        if vf.proc and vf.proc.poll() is None:
            vf.proc.kill()
        shutil.rmtree(wdir, ignore_errors=True)

# ---------------------------------------------------------------- early stops (F27) and same-PID restarts (F28)

import threading
_UNSHARE = []
_BIG = {}
_BIG_LOCK = {"ipfix": threading.Lock(), "nf9": threading.Lock()}
CACHE_FILE = {"ipfix": "ipfix.cache", "nf9": "nf9.cache"}
RUNNING_LINE = {"ipfix": b"ipfix is running (UDP", "nf9": b"netflow v9 is running (UDP"}


def unshare_cmd():
    """the command prefix that runs a program as in a container: a PID namespace of its own with its own /proc
    ([] when this machine cannot do that: the same-PID cycles then give no verdict)"""
    if not _UNSHARE:
        cmd = []
        for opts in (["--kill-child"], []):
            c = ["unshare", "--pid", "--fork"] + opts + ["--mount-proc"]
            try:
                if subprocess.run(c + ["/bin/true"], capture_output=True, timeout=10).returncode == 0:
                    cmd = c
                    break
            except (OSError, subprocess.TimeoutExpired):
                pass
        _UNSHARE.append(cmd)
    return list(_UNSHARE[0])


def bigcache_tool(*args):
    rc, out, err = C.sh(["bash", "-c", 'ulimit -v 16000000; exec "$0" "$@"', C.CORR, "bigcache"] + [str(a) for a in args], env=C.GOENV)
    kv = dict(w.split("=", 1) for w in out.split() if "=" in w)
    return rc, kv, (out + err)[-300:]


def big_cache_file(proto):
    """a LARGE template cache file written by the real code (`corr bigcache gen`: thousands of exporters announce ten
    templates of 40 fields each to the real decoder, the real Dump saves the cache), generated once per run and copied
    into each cycle's directory. Large = the real GetCache needs well over the 1 s grace period of shutdown() to load
    it (measured by loading it back; if this machine loads it in under 1.5 s it is generated again, larger).
    Returns {"path", "templates", "sha256", "load_ms", "octets", "exporters"} or {"error": …}."""
    with _BIG_LOCK[proto]:
        if proto not in _BIG:
            path = os.path.join(C.WORK, "bigcache-%d-%s.cache" % (os.getpid(), proto))
            ne = {"ipfix": 6000, "nf9": 8000}[proto]
            info = {"error": "not generated"}
            for attempt in range(2):
                rc, kv, txt = bigcache_tool("gen", proto, path, ne, 10, 40)
                if rc != 0 or "sha256" not in kv:
                    info = {"error": "corr bigcache gen failed: " + txt}
                    break
                info = {"path": path, "templates": int(kv["templates"]), "sha256": kv["sha256"], "load_ms": int(kv["load_ms"]),
                        "octets": int(kv["octets"]), "exporters": ne}
                if info["load_ms"] >= 1500:
                    break
                ne = min(3 * ne, int(ne * 1900 / max(info["load_ms"], 1)) + 1)
            _BIG[proto] = info
        return _BIG[proto]


def remove_big_cache_files():
    for info in _BIG.values():
        if info.get("path") and os.path.exists(info["path"]):
            os.remove(info["path"])
    _BIG.clear()


EARLY_OFFSETS = [0, 0.02, 0.1, 1.0]


def early_stop_cycle(n, seed, binary, params=None):
    """a stop shortly after the start (F27): the collector is started on a large, valid template cache file of an earlier
    run (big_cache_file) and SIGTERM / SIGINT is delivered `offset_s` after its "<protocol> is running (UDP …" line, i.e.
    while run() is still loading the file (or, with the 1 s offset, shortly after); with `stall_s` the process is also
    frozen (SIGSTOP) for that long right after the signal (a VM pause: the grace period elapses while nothing runs).
    Checks: exit status 0, no panic, exit within a few seconds of the end of the load, and the cache file still holds
    EVERY template it held before the start — it is loaded back with the real GetCache and the multiset of template
    records is compared (`corr bigcache digest`; the cache keys are never looked at). returns (impl_line, verdict, sample)"""
    rng = random.Random(seed * 100003 + n * 53 + 29)
    params = dict(params or {})
    proto = params.get("proto") or ["ipfix", "nf9"][n % 2]
    sig = getattr(signal, params.get("signal") or rng.choice(["SIGTERM", "SIGTERM", "SIGINT"]))
    offset = float(params["offset_s"]) if "offset_s" in params else EARLY_OFFSETS[(n // 2) % len(EARLY_OFFSETS)]
    stall_s = float(params["stall_s"]) if "stall_s" in params else (1.05 if offset < 0.5 and rng.random() < 0.25 else 0.0)
    sample = {"pattern": "early-stop", "proto": proto, "signal": sig.name, "offset_s": offset, "stall_s": stall_s}
    big = big_cache_file(proto)
    if "error" in big:
        return "no-big-file", "fail:build " + big["error"], sample
    sample.update({"cache_file_octets": big["octets"], "templates_in_file": big["templates"], "getcache_ms_measured": big["load_ms"]})
    wdir = os.path.join(C.WORK, "e2e-early-%d-%d-%d" % (os.getpid(), seed, n))
    shutil.rmtree(wdir, ignore_errors=True)
    os.makedirs(wdir)
    fn = os.path.join(wdir, CACHE_FILE[proto])
    vf = Vflow(wdir, free_ports(5), binary, extra_args=["-verbose=false"], ready=RUNNING_LINE[proto])
    try:
        shutil.copyfile(big["path"], fn)
        st0 = vf.start()
        if st0 == "crash":
            return "start-crashed", "fail:start the collector crashed while starting: " + vf.log()[-300:].replace("\n", " | "), sample
        if not st0:
            return "not-started", "", sample
        if offset:
            time.sleep(offset)
        t0 = time.time()
        vf.send(sig)
        if stall_s:
            vf.send(signal.SIGSTOP)
            time.sleep(stall_s)
            vf.send(signal.SIGCONT)
        try:
            rc = vf.proc.wait(timeout=20 + stall_s)
        except subprocess.TimeoutExpired:
            vf.proc.kill()
            vf.proc.wait()
            rc = "timeout"
        lat = time.time() - t0 - stall_s
        vf.errf.close()
        log1 = vf.log()
        sample.update({"exit": rc, "latency_s": round(lat, 2)})
        what = "%s %.2fs after %r%s" % (sig.name, offset, RUNNING_LINE[proto].decode() + " …", (" and a %.2fs freeze" % stall_s) if stall_s else "")
        bad = [w for w in ("panic:", "fatal error", "DATA RACE", "send on closed channel") if w in log1]
        if rc == 1 and "address already in use" in log1:
            # the signal is sent before all listeners are bound: a port picked by the harness was taken by another process
            # meanwhile and the collector ended itself with logger.Fatal: no verdict
            return "not-started", "", sample
        if rc != 0:
            return "exit=%s" % rc, "fail:exit status %s after %s (latency %.1fs): %s" % (rc, what, lat, log1[-300:].replace("\n", " | ")), sample
        if bad:
            return "exit=0 stderr=%s" % bad[0], "fail:stderr the collector logged %r while stopping: %s" % (bad[0], log1[-300:].replace("\n", " | ")), sample
        if lat > 6.0 + 2 * big["load_ms"] / 1000.0:
            return "exit=0 slow", "fail:latency exit took %.1fs after %s (loading the file alone takes %.1fs)" % (lat, what, big["load_ms"] / 1000.0), sample
        # the cache file of the OTHER protocol did not exist; this one must still hold what it held
        try:
            size = os.path.getsize(fn)
            head = open(fn, "rb").read(60).decode("utf-8", "replace")
        except OSError as e:
            return "exit=0 cache-gone", "fail:wiped the cache file %s is gone after %s: %r" % (CACHE_FILE[proto], what, e), sample
        rc2, kv, txt = bigcache_tool("digest", proto, fn)
        if rc2 != 0 or "templates" not in kv:
            return "digest-failed", "", dict(sample, digest_error=txt)
        sample.update({"templates_after_stop": int(kv["templates"]), "cache_file_octets_after_stop": size})
        if int(kv["templates"]) != big["templates"] or kv["sha256"] != big["sha256"]:
            return "exit=0 templates-lost", ("fail:wiped the cache file %s held %d templates (%d octets) of the previous run when the collector was "
                                             "started; after %s and exit status 0 it holds %d (loaded with the real GetCache; the file is now %d octets: %s%s)"
                                             % (CACHE_FILE[proto], big["templates"], big["octets"], what, int(kv["templates"]), size, head, "…" if size > 60 else "")), sample
        return "exited=1 panic=0 templates-kept=1", "ok", sample
    finally:
        if vf.proc and vf.proc.poll() is None:
            vf.proc.kill()
        shutil.rmtree(wdir, ignore_errors=True)


def same_pid_cycle(n, seed, binary, params=None):
    """repeated stop/start where every start gets the same process id (F28), as in a container: (0) outside any namespace
    a second instance on the pid file of a running one must still be refused; then the collector is started the way the
    shipped docker-compose entrypoint starts it, in a PID namespace of its own (unshare --pid --fork --mount-proc), (1)
    learns templates and is stopped, (2) is started again in a fresh PID namespace with the pid file of run 1 kept —
    which records the very PID the new process has: it must come up and decode data for the templates of run 1 at once.
    No verdict when this machine cannot create PID namespaces. returns (impl_line, verdict, sample)"""
    rng = random.Random(seed * 100003 + n * 71 + 5)
    sample = {"pattern": "same-pid"}
    if not unshare_cmd():
        return "no-unshare", "", dict(sample, note="unshare --pid --fork --mount-proc is not available here: no verdict")
    sig = getattr(signal, (params or {}).get("signal") or rng.choice(["SIGTERM", "SIGTERM", "SIGINT"]))
    sample["signal"] = sig.name
    wdir = os.path.join(C.WORK, "e2e-samepid-%d-%d-%d" % (os.getpid(), seed, n))
    shutil.rmtree(wdir, ignore_errors=True)
    os.makedirs(wdir)
    vfs = []
    try:
        # (0) a genuinely running instance still makes a second start on its pid file fail
        a = Vflow(wdir, free_ports(5), binary)
        vfs.append(a)
        st = a.start()
        if st is not True:
            return "not-started", "" if st is False else "fail:start the collector crashed while starting: " + a.log()[-300:].replace("\n", " | "), sample
        b = Vflow(wdir, free_ports(5), binary)
        vfs.append(b)
        stb = b.start(tries=1)
        logb = b.log()
        if stb is True:
            b.stop(signal.SIGKILL)
            a.stop(signal.SIGKILL)
            return "second-instance-started", "fail:second-instance a second collector started on the pid file of a running one (pid %s)" % open(os.path.join(wdir, "vflow.pid")).read(), sample
        sample["second_instance_refused"] = "already is running" in logb
        rc, lat = a.stop(signal.SIGTERM)
        if rc != 0:
            return "exit=%s" % rc, "fail:exit status %s stopping the first instance: %s" % (rc, a.log()[-300:].replace("\n", " | ")), sample
        if not sample["second_instance_refused"]:
            return "second-instance-unclear", "", sample
        # (1) first run in a PID namespace: learn templates, stop
        vf = Vflow(wdir, free_ports(5), binary, pidns=True)
        vfs.append(vf)
        st = vf.start()
        if st is not True:
            if "already is running" in vf.log():
                return "run1-refused", "", dict(sample, note="the pid of the host-namespace instance exists in the new namespace")
            return "not-started", "" if st is False else "fail:start the collector crashed while starting: " + vf.log()[-300:].replace("\n", " | "), sample
        sample["pid_run1"] = open(os.path.join(wdir, "vflow.pid")).read()
        s = sender(2 + rng.randrange(5))
        tpls = []
        for k in range(rng.randint(2, 6)):
            proto = ["ipfix", "nf9"][k % 2]
            fields = tpl_fields(rng)
            tid = 256 + k
            s.sendto((ipfix_msg if proto == "ipfix" else v9_msg)([tpl_set(proto, tid, fields)], k + 1), ("127.0.0.1", vf.ports[0] if proto == "ipfix" else vf.ports[3]))
            tpls.append((proto, tid, fields))
        want = {"IPFIX": sum(1 for t in tpls if t[0] == "ipfix"), "NetflowV9": sum(1 for t in tpls if t[0] == "nf9")}
        t_ack = time.time()
        while time.time() - t_ack < 5:
            stt = vf.stats()
            try:
                if all(stt[k]["DecodedCount"] >= v for k, v in want.items()):
                    break
            except (KeyError, TypeError):
                break
            time.sleep(0.02)
        time.sleep(0.3)
        rc, lat = vf.stop(sig)
        sample.update({"templates": len(tpls), "exit_run1": rc})
        if rc != 0:
            return "exit=%s" % rc, "fail:exit status %s after %s (run 1 in the PID namespace): %s" % (rc, sig.name, vf.log()[-300:].replace("\n", " | ")), sample
        # (2) second run: fresh PID namespace, same pid file, same cache files
        vf2 = Vflow(wdir, free_ports(5), binary, pidns=True)
        vfs.append(vf2)
        st = vf2.start()
        log2 = vf2.log()
        if st is not True:
            if "already is running" in log2:
                return "restart-refused", ("fail:restart refused the collector, stopped cleanly (exit status 0) and started again the same way in a fresh PID "
                                           "namespace (`/bin/sh -c \"sleep … && vflow …\"`, the shipped docker-compose entrypoint), exits with status %s: %s — the "
                                           "pid file left by the previous run records PID %s, which is the new process's own PID"
                                           % (vf2.proc.returncode, log2.strip().split("\n")[-1][-120:], sample["pid_run1"])), sample
            return "not-restarted", "" if st is False else "fail:restart the collector crashed when started again: " + log2[-300:].replace("\n", " | "), sample
        sample["pid_run2"] = open(os.path.join(wdir, "vflow.pid")).read()
        for k, (proto, tid, fields) in enumerate(tpls):
            s.sendto((ipfix_msg if proto == "ipfix" else v9_msg)([data_set(tid, fields, rng)], 100 + k), ("127.0.0.1", vf2.ports[0] if proto == "ipfix" else vf2.ports[3]))
        t_probe = time.time()
        while time.time() - t_probe < 5:
            lg = vf2.log()
            if len(published_lines(lg)) + lg.count("unknown ipfix template") + lg.count("unknown netflow template") >= len(tpls):
                break
            time.sleep(0.05)
        stt = vf2.stats()
        rc2, lat2 = vf2.stop(signal.SIGTERM)
        s.close()
        log2 = vf2.log()
        unknown = log2.count("unknown ipfix template") + log2.count("unknown netflow template")
        decoded = len(published_lines(log2))
        sample.update({"exit_run2": rc2, "decoded_after_restart": decoded})
        if rc2 != 0 or any(w in log2 for w in ("panic:", "fatal error")):
            return "exit2=%s" % rc2, "fail:exit second stop: status %s: %s" % (rc2, log2[-300:].replace("\n", " | ")), sample
        try:
            received = stt["IPFIX"]["UDPCount"] + stt["NetflowV9"]["UDPCount"]
        except (KeyError, TypeError):
            received = None
        if not unknown and decoded < len(tpls) and (received is None or received < len(tpls)):
            return "probes-lost", "", sample
        if unknown or decoded < len(tpls):
            return "exit=0 restart-undecoded", "fail:restart %d data datagrams sent without templates after the same-PID restart, %d decoded, %d reported unknown" % (len(tpls), decoded, unknown), sample
        return "restarted=1 same-pid=%d decoded=1" % (sample["pid_run1"] == sample["pid_run2"]), "ok", sample
    finally:
        for v in vfs:
            if v.proc and v.proc.poll() is None:
                v.proc.kill()
                v.proc.wait()
        shutil.rmtree(wdir, ignore_errors=True)


# ---------------------------------------------------------------- start-up stops (F32)

_SMALL = {}
_SMALL_LOCK = threading.Lock()


def small_cache_files():
    """a pair of small valid template cache files of an "earlier run" (`corr bigcache gen`: 20 exporters x 5 templates x 8
    fields, written by the real decoder + Dump), generated once per run: {"ipfix": {"path", "templates", "sha256"}, "nf9": …}
    or {"error": …}"""
    with _SMALL_LOCK:
        if not _SMALL:
            out = {}
            for proto in ("ipfix", "nf9"):
                path = os.path.join(C.WORK, "smallcache-%d-%s.cache" % (os.getpid(), proto))
                rc, kv, txt = bigcache_tool("gen", proto, path, 20, 5, 8)
                if rc != 0 or "sha256" not in kv:
                    out = {"error": "corr bigcache gen failed: " + txt}
                    break
                out[proto] = {"path": path, "templates": int(kv["templates"]), "sha256": kv["sha256"]}
            _SMALL.update(out)
        return dict(_SMALL)


def remove_small_cache_files():
    for info in _SMALL.values():
        if isinstance(info, dict) and info.get("path") and os.path.exists(info["path"]):
            os.remove(info["path"])
    _SMALL.clear()


def dead_pid():
    """the process id of a process that has just ended (what a pid file of an earlier run records)"""
    p = subprocess.Popen(["/bin/true"])
    p.wait()
    return p.pid


def startup_stop_cycle(n, seed, binary, params=None):
    """a stop DURING the start (F32): SIGTERM / SIGINT is delivered `offset_ms` (0 .. 40 ms, dense at 0 .. 20 ms) after the
    exec of the collector, i.e. while `main` is still reading its options (flags, configuration file, pid-file test — which
    forks `kill -0 <pid>` when a pid file of an earlier run is present: `stale_pid`, half of the cycles —, pid-file write),
    or (`trigger` = "pidfile" / "log") at the moment the harness sees the cycle's pid file hold the new process's pid / the
    first line in the collector's log, plus `offset_ms`. C15: "all signal arrival times": exit status 0.

    Verdict with certainty only. The instants before the Go runtime has installed its handlers and before `main` runs are the
    operating system's (default action of the signal: the process ends with the signal as its wait status): a process that
    ended by the signal WITHOUT evidence that `main` was already running gives no verdict (`killed before-main`). Evidence
    that `main` was running when the signal arrived: the cycle's own fresh pid file holds this process's pid (written by
    vFlowPIDWrite at the end of GetOptions), or the collector's log holds a line (the logger is used by GetOptions, i.e. by
    `main`, only). Then `main` had had the chance to install its handler: `fail:killed`. Exit status 0: no panic, exit within
    6 s, and both template cache files of the earlier run (small valid files written by the real code) still hold every
    template they held (loaded back with the real GetCache: `corr bigcache digest`). returns (impl_line, verdict, sample)"""
    rng = random.Random(seed * 100003 + n * 97 + 41)
    params = dict(params or {})
    sig = getattr(signal, params.get("signal") or rng.choice(["SIGTERM", "SIGTERM", "SIGINT"]))
    trigger = params.get("trigger") or ["offset", "offset", "pidfile", "log"][n % 4]
    if "offset_ms" in params:
        offset_ms = float(params["offset_ms"])
    elif trigger == "offset":
        offset_ms = round(rng.uniform(0, 20) if rng.random() < 0.8 else rng.uniform(20, 40), 2)
    else:
        offset_ms = round(rng.choice([0, 0, 0.05, 0.2, 1.0]), 2)
    stale_pid = bool(params["stale_pid"]) if "stale_pid" in params else (n // 4) % 2 == 0
    verbose = bool(params["verbose"]) if "verbose" in params else (n // 8) % 2 == 0
    sample = {"pattern": "startup-stop", "signal": sig.name, "trigger": trigger, "offset_ms": offset_ms, "stale_pid": stale_pid, "verbose": verbose}
    small = small_cache_files()
    if "error" in small:
        return "no-cache-files", "fail:build " + small["error"], sample
    wdir = os.path.join(C.WORK, "e2e-startstop-%d-%d-%d" % (os.getpid(), seed, n))
    shutil.rmtree(wdir, ignore_errors=True)
    os.makedirs(wdir)
    proc = None
    try:
        for proto in ("ipfix", "nf9"):
            shutil.copyfile(small[proto]["path"], os.path.join(wdir, CACHE_FILE[proto]))
        pidpath = os.path.join(wdir, "vflow.pid")
        if stale_pid:
            open(pidpath, "w").write(str(dead_pid()))
        p = free_ports(5)
        errpath = os.path.join(wdir, "stderr.log")
        errf = open(errpath, "wb")
        args = [binary, "-config", os.path.join(wdir, "absent.conf"), "-pid-file", pidpath,
                "-ipfix-port", str(p[0]), "-sflow-port", str(p[1]), "-netflow5-port", str(p[2]), "-netflow9-port", str(p[3]),
                "-stats-http-addr", "127.0.0.1", "-stats-http-port", str(p[4]), "-stats-format", "restful",
                "-ipfix-tpl-cache-file", os.path.join(wdir, "ipfix.cache"), "-netflow9-tpl-cache-file", os.path.join(wdir, "nf9.cache"),
                "-producer-enabled=false", "-dynamic-workers=false", "-ipfix-rpc-enabled=false",
                "-ipfix-workers", "2", "-netflow9-workers", "2", "-netflow5-workers", "2", "-sflow-workers", "2",
                "-verbose=%s" % ("true" if verbose else "false")]
        t_exec = time.time()
        proc = subprocess.Popen(args, stdout=errf, stderr=errf, cwd=wdir)
        own = str(proc.pid).encode()
        if trigger == "pidfile":
            # busy-wait until the pid file holds the new process's pid (at most 2 s)
            while time.time() - t_exec < 2 and proc.poll() is None:
                try:
                    if open(pidpath, "rb").read() == own:
                        break
                except OSError:
                    pass
        elif trigger == "log":
            while time.time() - t_exec < 2 and proc.poll() is None:
                try:
                    if os.path.getsize(errpath) > 0:
                        break
                except OSError:
                    pass
        t_wait = time.time() + offset_ms / 1000.0 if trigger != "offset" else t_exec + offset_ms / 1000.0
        while time.time() < t_wait:
            pass
        t0 = time.time()
        try:
            os.kill(proc.pid, sig)
        except ProcessLookupError:
            pass
        sample["signal_ms_after_exec"] = round((t0 - t_exec) * 1000, 2)
        try:
            rc = proc.wait(timeout=15)
        except subprocess.TimeoutExpired:
            proc.kill()
            proc.wait()
            rc = "timeout"
        lat = time.time() - t0
        errf.close()
        log1 = open(errpath, "rb").read().decode("utf-8", "replace")
        try:
            pid_now = open(pidpath, "rb").read()
        except OSError:
            pid_now = None
        sample.update({"exit": rc, "latency_s": round(lat, 2), "pid_file_written": pid_now == own, "log_lines": log1.count("\n")})
        what = "%s %.2f ms after exec%s" % (sig.name, sample["signal_ms_after_exec"],
                                            "" if trigger == "offset" else " (%.2f ms after the harness saw %s)" % (
                                                offset_ms, "the pid file hold the pid" if trigger == "pidfile" else "the first log line"))

        def files_intact():
            for proto in ("ipfix", "nf9"):
                fn = os.path.join(wdir, CACHE_FILE[proto])
                rc2, kv, txt = bigcache_tool("digest", proto, fn)
                if rc2 != 0 or "templates" not in kv:
                    try:
                        head = open(fn, "rb").read(60).decode("utf-8", "replace")
                    except OSError as e:
                        head = repr(e)
                    return "the cache file %s of the earlier run cannot be loaded any more after %s (exit %s): %s" % (CACHE_FILE[proto], what, rc, head)
                if int(kv["templates"]) != small[proto]["templates"] or kv["sha256"] != small[proto]["sha256"]:
                    return "the cache file %s held %d templates of the earlier run; after %s and exit %s it holds %d" % (
                        CACHE_FILE[proto], small[proto]["templates"], what, rc, int(kv["templates"]))
            return None

        if isinstance(rc, int) and rc < 0:
            evidence = []
            if pid_now == own:
                evidence.append("the cycle's pid file already held this process's pid %s (written by vFlowPIDWrite at the end of GetOptions)" % own.decode())
            if log1.strip():
                evidence.append("GetOptions had already logged %r" % log1.strip().split("\n")[-1][-70:])
            damaged = files_intact()
            if damaged:
                return "killed cache-damaged", "fail:wiped " + damaged, sample
            if rc != -int(sig):
                return "killed=%s" % rc, "fail:exit wait status %s after %s: %s" % (rc, what, log1[-300:].replace("\n", " | ")), sample
            if evidence:
                return "killed in-main", ("fail:killed the collector ended by the signal's default action (wait status %s) instead of exit status 0 after %s although main "
                                          "was running: %s%s" % (rc, what, "; ".join(evidence), " [a pid file of an earlier run was present]" if stale_pid else "")), sample
            return "killed before-main", "", sample           # skipped:before-main — the operating system's and the runtime's instants
        bad = [w for w in ("panic:", "fatal error", "DATA RACE", "send on closed channel") if w in log1]
        if rc == 1 and "address already in use" in log1:
            return "not-started", "", sample
        if rc == 1 and "already is running" in log1:
            return "stale-pid-alive", "", sample                # the recorded pid was taken by a new process meanwhile
        if rc != 0:
            return "exit=%s" % rc, "fail:exit status %s after %s (latency %.1fs): %s" % (rc, what, lat, log1[-300:].replace("\n", " | ")), sample
        if bad:
            return "exit=0 stderr=%s" % bad[0], "fail:stderr the collector logged %r while stopping: %s" % (bad[0], log1[-300:].replace("\n", " | ")), sample
        if lat > 6.0:
            return "exit=0 slow", "fail:latency exit took %.1fs after %s" % (lat, what), sample
        damaged = files_intact()
        if damaged:
            return "exit=0 templates-lost", "fail:wiped " + damaged, sample
        return "exited=1 panic=0 templates-kept=1", "ok", sample
    finally:
        if proc and proc.poll() is None:
            proc.kill()
            proc.wait()
        shutil.rmtree(wdir, ignore_errors=True)


class E2EResult(C.CorrResult):
    pass


def corpus_stalls(pid, which="stall"):
    """corpus/<pid>/e2e-shutdown--*.txt: one JSON object per line = the parameters of a stalled stop that once failed
    (`repeat`: how many times it is run; a stall hits the race in roughly one stop out of four). A line with a key
    `cycle` belongs to another kind of cycle (`early-stop`, `same-pid`) and is returned only when asked for by name"""
    d = os.path.join(C.ROOT, "corpus", pid)
    out = []
    if os.path.isdir(d):
        for fn in sorted(os.listdir(d)):
            if fn.startswith("e2e-shutdown--") and fn.endswith(".txt"):
                for l in open(os.path.join(d, fn)):
                    if l.strip() and not l.startswith("#"):
                        out.append(json.loads(l))
    return [w for w in out if w.get("cycle", "stall") == which]


def shutdown_cycles(pid, tier, seed):
    r = E2EResult()
    r.name = "e2e-shutdown"
    ok, binary, err = build_binary()
    if not ok:
        r.oracle_fail.append({"kind": "e2e-shutdown", "seed": seed, "session": ["build"], "verdict": "fail:build vflow binary does not build: " + err[-300:], "impl": ""})
        r.summary = {"built": False}
        return r
    n = 6 if tier == "quick" else 120
    # stalled stops (process frozen for 1.2 .. 1.5 s while it shuts down, flood on all four listeners, -cpu-cap 1): on the
    # tree before F21 was repaired 17 % .. 37 % of them (26 % over 120) died with `panic: send on closed channel`, so 32
    # of them miss it with p < 0.3 %. They run after the ordinary cycles (8 at a time: each keeps two CPUs busy)
    n_stall = 32 if tier == "quick" else 200
    import concurrent.futures as cf
    lat = []

    def collect(tag, futs):
        for i, f in enumerate(futs):
            line, verdict, sample = f.result()
            # a verdict about elapsed time is an artefact of a loaded machine unless it reproduces: the same cycle is run
            # again, alone, up to two more times (a stop that really hangs or crawls does so every time); any other
            # verdict (exit status, panic, lost template, undecoded data) stands as it is
            if verdict.startswith("fail:latency") or "timeout" in verdict[:40]:
                fn, args = getattr(f, "rerun", (None, None))
                for _ in range(2 if fn else 0):
                    line2, verdict2, sample2 = fn(*args)
                    if not (verdict2.startswith("fail:latency") or "timeout" in verdict2[:40]):
                        r.stats["slow-once"] = r.stats.get("slow-once", 0) + 1
                        line, verdict, sample = line2, verdict2, sample2
                        break
            r.evaluations += 1
            case = "%s %d seed %d %s" % (tag, i, seed, json.dumps(sample))
            r.stats[line] = r.stats.get(line, 0) + 1
            if verdict == "ok":
                r.oracle_ok += 1
                r.distinct.add(case)
                lat.append(sample.get("latency_s", sample.get("latency_after_thaw_s", 0)))
            elif verdict.startswith("fail"):
                r.oracle_fail.append({"kind": "e2e-shutdown", "seed": seed, "session": [case], "verdict": verdict, "impl": line})
            if len(r.samples) < 3:
                r.samples.append({"case": case, "impl": line})

    # early stops (F27: SIGTERM / SIGINT while run() is still loading a large cache file of the previous run) and same-PID
    # restarts (F28: stop/start in a PID namespace, pid file kept): the witnesses of corpus/C15 first, then generated ones.
    # They run three at a time next to the other cycles (each early stop loads > 100 MB of JSON twice)
    n_early, n_samepid = (2, 1) if tier == "quick" else (32, 6)
    ex2 = cf.ThreadPoolExecutor(max_workers=3)
    fe, fp = [], []
    early_w = [dict(w, repeat=None) for w in corpus_stalls(pid, "early-stop") for _ in range(int(w.get("repeat", 1)))]
    for i, w in enumerate([None] * n_early + early_w):
        args = (i if w is None else 1000 + i - n_early, seed, binary, w)
        f = ex2.submit(early_stop_cycle, *args)
        f.rerun = (early_stop_cycle, args)
        fe.append(f)
    samepid_w = [dict(w, repeat=None) for w in corpus_stalls(pid, "same-pid") for _ in range(int(w.get("repeat", 1)))]
    for i, w in enumerate([None] * n_samepid + samepid_w):
        args = (i if w is None else 1000 + i - n_samepid, seed, binary, w)
        f = ex2.submit(same_pid_cycle, *args)
        f.rerun = (same_pid_cycle, args)
        fp.append(f)
    with cf.ThreadPoolExecutor(max_workers=6 if tier == "quick" else 12) as ex:
        forced = ["lull", "burst", "lull", "steady", "idle", "burst"]   # the quick tier covers every pattern
        fc = []
        for i in range(n):
            args = (i, seed, binary, forced[i] if i < len(forced) else None)
            f = ex.submit(cycle, *args)
            f.rerun = (cycle, args)
            fc.append(f)
        collect("shutdown-cycle", fc)
    with cf.ThreadPoolExecutor(max_workers=8) as ex:
        witnesses = [dict(w, repeat=None) for w in corpus_stalls(pid) for _ in range(int(w.get("repeat", 1)))]
        fw, fs = [], []
        for i, w in enumerate(witnesses):
            f = ex.submit(stall_cycle, 1000 + i, seed, binary, w)
            f.rerun = (stall_cycle, (1000 + i, seed, binary, w))
            fw.append(f)
        for i in range(n_stall):
            f = ex.submit(stall_cycle, i, seed, binary)
            f.rerun = (stall_cycle, (i, seed, binary))
            fs.append(f)
        collect("stalled-stop-witness", fw)
        collect("stalled-stop", fs)
    collect("early-stop", fe[:n_early])
    collect("early-stop-witness", fe[n_early:])
    collect("same-pid", fp[:n_samepid])
    collect("same-pid-witness", fp[n_samepid:])
    ex2.shutdown()
    # start-up stops (F32: SIGTERM / SIGINT while main is still reading its options): the witnesses of corpus/C15 first, then
    # generated ones; they run last, four at a time, with nothing else running (the harness aims at windows of microseconds)
    n_startstop = 32 if tier == "quick" else 320
    startstop_w = [dict(w, repeat=None) for w in corpus_stalls(pid, "startup-stop") for _ in range(int(w.get("repeat", 1)))]
    with cf.ThreadPoolExecutor(max_workers=4) as ex:
        fss = []
        for i, w in enumerate(startstop_w + [None] * n_startstop):
            args = (1000 + i if w is not None else i - len(startstop_w), seed, binary, w)
            f = ex.submit(startup_stop_cycle, *args)
            f.rerun = (startup_stop_cycle, args)
            fss.append(f)
        collect("startup-stop-witness", fss[:len(startstop_w)])
        collect("startup-stop", fss[len(startstop_w):])
    remove_small_cache_files()
    big = {k: {x: v.get(x) for x in ("octets", "templates", "load_ms", "exporters", "error") if x in v} for k, v in _BIG.items()}
    remove_big_cache_files()
    r.summary = {"cycles": n, "stalled_stops": n_stall + len(witnesses), "early_stops": len(fe), "same_pid_restarts": len(fp),
                 "startup_stops": len(fss), "startup_stops_before_main": r.stats.get("killed before-main", 0),
                 "pid_namespaces": bool(unshare_cmd()), "big_cache_files": big,
                 "ok": r.oracle_ok, "failed": len(r.oracle_fail),
                 "max_exit_latency_s": max(lat) if lat else None, "distribution": r.stats}
    return r


# extension elements an installation may add to its ipfix.elements: (abstract data type, octets, the octets sent, the JSON value)
EXT_TYPES = [("unsigned32", 4, bytes([0, 0, 0, 42]), "42"), ("unsigned16", 2, bytes([1, 2]), "258"), ("unsigned64", 8, bytes(7) + b"\x07", "7"),
             ("ipv4Address", 4, bytes([10, 0, 0, 2]), '"10.0.0.2"'), ("unsigned8", 1, bytes([200]), "200")]
STARTUP_VARIANTS = {"all-on": [], "ipfix-off": ["-ipfix-enabled=false"], "nf9-off": ["-netflow9-enabled=false"],
                    "both-off": ["-ipfix-enabled=false", "-netflow9-enabled=false"]}


def elements_file_with(ext_id, ext_type):
    """the text of an ipfix.elements file: the shipped one + one extension element (enterprise 0, an id the shipped table
    does not use) of the given abstract data type"""
    txt = open(os.path.join(C.REPO, "scripts", "ipfix.elements")).read()
    lines = txt.split("\n")
    # the block of enterprise 0 starts at the line "0:" and ends before the next top-level key (or at the end)
    i0 = lines.index("0:")
    end = next((j for j in range(i0 + 1, len(lines)) if lines[j] and not lines[j].startswith(" ")), len(lines))
    while end > i0 and not lines[end - 1].strip():
        end -= 1
    ext = ["  %d:" % ext_id, "  - verifExtensionElement", "  - %s" % ext_type]
    return "\n".join(lines[:end] + ext + lines[end:]) + ("" if txt.endswith("\n") and lines[-1] == "" else "\n")


def startup_cycle(n, seed, binary, params=None):
    """start the collector with an ipfix.elements file installed in its configuration directory while exporters are
    already sending NetFlow v9 and IPFIX (templates + data): it must come up, stay up and stop cleanly (C20: both load
    paths; C01: no datagram terminates the process).

    The installed file is the cycle's own: the shipped one + one EXTENSION element (an id the built-in table does not have,
    a random abstract data type), and the templates the exporters announce use that element (F34). The information model
    is shared by the IPFIX and the NetFlow v9 decoder, so whichever of the two is switched on (`variant`: both, IPFIX off,
    NetFlow v9 off, both off — then nothing decodes and no load is needed) must publish the element decoded with the
    FILE's type: decoding of one protocol must not depend on the switch of the other. returns (impl_line, verdict, sample)"""
    import threading
    rng = random.Random(seed * 7919 + n)
    params = dict(params or {})
    wdir = os.path.join(C.WORK, "e2e-start-%d-%d-%d" % (os.getpid(), seed, n))
    shutil.rmtree(wdir, ignore_errors=True)
    os.makedirs(wdir)
    installed = bool(params["elements_file"]) if "elements_file" in params else n % 4 != 3   # three start-ups in four with the file present
    variant = params.get("variant") or ["all-on", "ipfix-off", "nf9-off", "all-on", "ipfix-off", "both-off", "ipfix-off", "nf9-off"][(n // 4) % 8]
    ext_id = int(params.get("ext_id") or rng.randint(434, 32767))
    tname, tlen, toctets, tjson = next(t for t in EXT_TYPES if t[0] == params["ext_type"]) if "ext_type" in params else EXT_TYPES[rng.randrange(len(EXT_TYPES))]
    sample = {"elements_file": installed, "variant": variant}
    if installed:
        open(os.path.join(wdir, "ipfix.elements"), "w").write(elements_file_with(ext_id, tname))
        sample.update({"ext_id": ext_id, "ext_type": tname})
    vf = Vflow(wdir, free_ports(5), binary, extra_args=STARTUP_VARIANTS[variant])
    probed = [pr for pr in ("nf9", "ipfix") if installed and not (pr == "ipfix" and "ipfix" in variant or pr == "nf9" and "nf9" in variant) and variant != "both-off"]
    stop = threading.Event()
    sent = [0]

    def blast():
        s = sender(2 + rng.randrange(5))
        fields = [(8, 4), (12, 4), (1, 8), (2, 8)]
        if installed:
            fields = [(ext_id, tlen)] + fields
        tpl9 = v9_msg([tpl_set("nf9", 300, fields)], 1)
        tpl10 = ipfix_msg([tpl_set("ipfix", 300, fields)], 1)

        def dset():
            # three records; the extension element (first field) carries the octets whose rendering the oracle knows
            rl = sum(l for _, l in fields) - (tlen if installed else 0)
            recs = b"".join((toctets if installed else b"") + bytes(rng.randrange(256) for _ in range(rl)) for _ in range(3))
            return struct.pack(">HH", 300, 4 + len(recs)) + recs
        k = 0
        while not stop.is_set():
            try:
                p = vf.ports                       # a retry of the start picks fresh ports
                if k % 50 == 0:
                    s.sendto(tpl9, ("127.0.0.1", p[3]))
                    s.sendto(tpl10, ("127.0.0.1", p[0]))
                s.sendto(v9_msg([dset()], k), ("127.0.0.1", p[3]))
                s.sendto(ipfix_msg([dset()], k), ("127.0.0.1", p[0]))
                sent[0] += 2
            except OSError:
                pass                               # nothing listens yet (ICMP port unreachable): keep knocking
            k += 1
        s.close()
    th = threading.Thread(target=blast)
    th.start()
    try:
        st = vf.start()
        if st is True:
            time.sleep(0.4)                        # traffic keeps flowing after the sockets are bound
            alive = vf.proc.poll() is None
        stop.set()
        th.join()
        sample["datagrams_sent"] = sent[0]
        if st == "crash" or (st is True and not alive):
            lg = vf.log()
            i = max(lg.find("DATA RACE"), lg.find("fatal error"), lg.find("panic:"))
            if i < 0 and "address already in use" in lg:
                return "not-started", "", sample      # a port picked by the harness was taken by another process: no verdict
            if i < 0:
                i = max(0, len(lg) - 880)             # died without a crash report: show how the log ends
            return "start-crashed", "fail:startup the collector died / raced while starting under traffic (ipfix.elements %s): %s" % (
                "installed" if installed else "absent", lg[max(0, i - 20):i + 900].replace("\n", " | ")), sample
        if not st:
            return "not-started", "", sample
        # judged on what was logged while starting and decoding (the stop path has its own property, C15, and its
        # non-atomic stop flag is a known benign race report): snapshot the log, then end the process without the stop path
        log = vf.log()
        vf.proc.kill()
        vf.proc.wait()
        vf.errf.close()
        if any(w in log for w in ("panic:", "fatal error", "DATA RACE")):
            i = max(log.find("DATA RACE"), log.find("fatal error"), log.find("panic:"))
            return "raced", "fail:startup race / crash report after a start under traffic (ipfix.elements %s): %s" % (
                "installed" if installed else "absent", log[max(0, i - 20):i + 900].replace("\n", " | ")), sample
        sample["decoded"] = len(published_lines(log))
        # the extension element of the installed file: every decoder that is switched on publishes it with the file's type
        want = '{"I":%d,"V":%s}' % (ext_id, tjson)
        seen = {}
        for pr in probed:
            agent_lines = [l for l in log.split("\n") if '"DataSets":[[' in l and (('"Version":9' in l) == (pr == "nf9"))]
            missing = ("Netflow element key (%d) not exist" if pr == "nf9" else "IPFIX element key (%d) not exist") % ext_id
            seen[pr] = {"published": sum(1 for l in agent_lines if want in l), "not_exist": log.count(missing),
                        "other": next((l[l.find('"DataSets"'):][:120] for l in agent_lines if want not in l), None)}
        if probed:
            sample["extension_element"] = seen
        for pr in probed:
            name = {"nf9": "NetFlow v9", "ipfix": "IPFIX"}[pr]
            if seen[pr]["not_exist"]:
                i = log.find("element key (%d) not exist" % ext_id)
                return "ext-unknown %s" % pr, ("fail:not-loaded the installed ipfix.elements adds element %d (%s) and the %s templates use it, but the %s decoder "
                                                "does not know it (%d x %r, %d messages with it published) when started with %s: decoding depends on the switch of another protocol"
                                                % (ext_id, tname, name, name, seen[pr]["not_exist"], log[max(0, i - 8):i + 40].replace("\n", " "), seen[pr]["published"],
                                                   " ".join(STARTUP_VARIANTS[variant]) or "the default switches")), sample
            if seen[pr]["other"]:
                return "ext-differs %s" % pr, "fail:not-loaded element %d of the installed ipfix.elements (%s, octets %s) must be published as %s by the %s decoder; published: %s" % (
                    ext_id, tname, toctets.hex(), want, name, seen[pr]["other"]), sample
        if probed and not all(seen[pr]["published"] for pr in probed):
            return "ext-unseen", "", sample           # no data set of a probed protocol was published in the 0.4 s (loss, slow start): no verdict
        return "started=1 alive=1 clean=1" + (" ext=%s" % "+".join(probed) if probed else ""), "ok", sample
    finally:
        stop.set()
        if vf.proc and vf.proc.poll() is None:
            vf.proc.kill()
        shutil.rmtree(wdir, ignore_errors=True)


def startup_cycles(pid, tier, seed):
    r = E2EResult()
    r.name = "e2e-startup"
    # built with the race detector: the window in which an unsynchronised access kills the process ("concurrent map read
    # and map write") is a few microseconds wide, the detector reports the same access pair whenever both occur
    ok, binary, err = build_binary(race=True)
    if not ok:
        r.oracle_fail.append({"kind": "e2e-startup", "seed": seed, "session": ["build"], "verdict": "fail:build vflow binary does not build: " + err[-300:], "impl": ""})
        r.summary = {"built": False}
        return r
    # one installed-file start-up in three shows the unsynchronised access on the unrepaired tree: 32 cycles miss it with p < 1e-4
    n = 32 if tier == "quick" else 320
    jobs = [(i, None) for i in range(n)]
    if pid == "C06":
        # C06 (NetFlow v9 records decoded as their templates describe, for templates over the LOADED information model): the
        # start-ups whose NetFlow v9 exporter uses an extension element of the installed file, with the IPFIX listener off / on
        n = 8 if tier == "quick" else 64
        jobs = [(i, {"elements_file": True, "variant": "ipfix-off" if i % 4 else "all-on"}) for i in range(n)]
    # the witnesses of corpus/<pid>/e2e-startup--*.txt first (one JSON object per line = parameters of a cycle)
    wdir = os.path.join(C.ROOT, "corpus", pid)
    wit = []
    if os.path.isdir(wdir):
        for fn in sorted(os.listdir(wdir)):
            if fn.startswith("e2e-startup--") and fn.endswith(".txt"):
                wit += [json.loads(l) for l in open(os.path.join(wdir, fn)) if l.strip() and not l.startswith("#")]
    jobs = [(1000 + k, w) for k, w in enumerate(wit)] + jobs
    import concurrent.futures as cf
    with cf.ThreadPoolExecutor(max_workers=6) as ex:
        futs = [ex.submit(startup_cycle, i, seed, binary, w) for i, w in jobs]
        for (i, _), f in zip(jobs, futs):
            line, verdict, sample = f.result()
            r.evaluations += 1
            case = "startup-cycle %d seed %d %s" % (i, seed, json.dumps(sample))
            r.stats[line] = r.stats.get(line, 0) + 1
            if verdict == "ok":
                r.oracle_ok += 1
                r.distinct.add(case)
            elif verdict.startswith("fail"):
                r.oracle_fail.append({"kind": "e2e-startup", "seed": seed, "session": [case], "verdict": verdict, "impl": line})
            if len(r.samples) < 3:
                r.samples.append({"case": case, "impl": line})
    r.summary = {"cycles": len(jobs), "ok": r.oracle_ok, "failed": len(r.oracle_fail), "distribution": r.stats}
    return r


def redefinition_cycle(n, seed, binary, workers):
    """one exporter redefines template 500 between two definitions and sends data for the new definition right
    behind each announcement (300 pairs, IPFIX or NetFlow v9); every published data set must show the definition
    announced just before it (C04: 'the template most recently announced ... in any earlier message')"""
    import re
    rng = random.Random(seed * 104729 + n)
    proto = ["ipfix", "nf9"][n % 2]
    wdir = os.path.join(C.WORK, "e2e-redef-%d-%d-%d" % (os.getpid(), seed, n))
    shutil.rmtree(wdir, ignore_errors=True)
    os.makedirs(wdir)
    vf = Vflow(wdir, free_ports(5), binary, workers=workers)
    sample = {"proto": proto, "workers": workers}
    defs = [[(8, 4), (12, 4)], [(1, 8)]]
    try:
        st = vf.start()
        if st == "crash":
            return "start-crashed", "fail:start the collector crashed while starting: " + vf.log()[-300:].replace("\n", " | "), sample
        if not st:
            return "not-started", "", sample
        s = sender(2)
        port = vf.ports[0] if proto == "ipfix" else vf.ports[3]
        mk = ipfix_msg if proto == "ipfix" else v9_msg
        pairs = 300
        for i in range(pairs):
            f = defs[i % 2]
            s.sendto(mk([tpl_set(proto, 500, f)], 2 * i + 1), ("127.0.0.1", port))
            s.sendto(mk([data_set(500, f, rng, 1)], 2 * i + 2), ("127.0.0.1", port))
            if i % 25 == 24:
                time.sleep(0.01)            # keep the socket buffer from overflowing
        s.close()
        time.sleep(0.5)
        stats = vf.stats()
        rc, lat = vf.stop(signal.SIGTERM)
        log = vf.log()
        try:
            received = stats["IPFIX" if proto == "ipfix" else "NetflowV9"]["UDPCount"]
        except (KeyError, TypeError):
            received = None
        sample["datagrams_received"] = received
        if received is None or received < 2 * pairs:
            # a datagram lost on the loopback (or no counters to tell): the announcement in front of a data set may be the
            # lost one, so nothing can be concluded from this cycle
            return "lost", "", sample
        seqkey = '"SequenceNo":' if proto == "ipfix" else '"SeqNum":'
        good = bad = 0
        first_bad = None
        for line in published_lines(log):
            m = re.search(seqkey + r"(\d+)", line)
            if not m:
                continue
            seq = int(m.group(1))
            if seq % 2 or seq < 2:
                continue
            want = [e for e, _ in defs[((seq - 2) // 2) % 2]]
            got = [int(x) for x in re.findall(r'\{"I":(\d+),', line[line.find('"DataSets"'):])]
            if got == want:
                good += 1
            else:
                bad += 1
                first_bad = first_bad or "data message %d (sent right behind the announcement of elements %s) published with elements %s" % (seq, want, got)
        unknown = log.count("unknown ipfix template") + log.count("unknown netflow template")
        sample.update({"pairs": pairs, "decoded_with_announced_definition": good, "decoded_with_superseded_definition": bad, "reported_unknown": unknown})
        if rc != 0:
            return "exit=%s" % rc, "fail:exit status %s: %s" % (rc, log[-300:].replace("\n", " | ")), sample
        if bad:
            verdict_class = "fail:worker-order" if workers > 1 else "fail:template"
            return "superseded=%d" % bad, "%s %d of %d data sets that followed a re-announcement were decoded with the superseded definition (%d workers): %s" % (
                verdict_class, bad, good + bad, workers, first_bad), sample
        return "superseded=0", "ok", sample
    finally:
        if vf.proc and vf.proc.poll() is None:
            vf.proc.kill()
        shutil.rmtree(wdir, ignore_errors=True)


def redefinition_cycles(pid, tier, seed):
    """C04 at the collector: with ONE worker per protocol every data set must be decoded with the definition announced
    just before it; with several workers the datagrams of one exporter are decoded concurrently and a data set can
    overtake the announcement in front of it — recorded finding K5 (`fail:worker-order`)."""
    r = E2EResult()
    r.name = "e2e-redefinition"
    ok, binary, err = build_binary()
    if not ok:
        r.oracle_fail.append({"kind": "e2e-redefinition", "seed": seed, "session": ["build"], "verdict": "fail:build vflow binary does not build: " + err[-300:], "impl": ""})
        r.summary = {"built": False}
        return r
    jobs = [(0, 1), (1, 1), (2, 4), (3, 4)] if tier == "quick" else [(i, 1 if i % 2 == 0 else [2, 4, 16, 200][(i // 2) % 4]) for i in range(24)]
    import concurrent.futures as cf
    with cf.ThreadPoolExecutor(max_workers=4) as ex:
        futs = [ex.submit(redefinition_cycle, i, seed, binary, w) for i, w in jobs]
        for (i, w), f in zip(jobs, futs):
            line, verdict, sample = f.result()
            r.evaluations += 1
            case = "redefinition-cycle %d seed %d %s" % (i, seed, json.dumps(sample))
            key = line if line.endswith("=0") or "=" not in line else line.split("=")[0] + ">0"
            r.stats[key] = r.stats.get(key, 0) + 1
            if verdict == "ok":
                r.oracle_ok += 1
                r.distinct.add(case)
            elif verdict.startswith("fail"):
                r.oracle_fail.append({"kind": "e2e-redefinition", "seed": seed, "session": [case], "verdict": verdict, "impl": line})
            if len(r.samples) < 3:
                r.samples.append({"case": case, "impl": line})
    r.summary = {"cycles": len(jobs), "ok": r.oracle_ok, "failed": len(r.oracle_fail), "distribution": r.stats}
    return r


def replay(d):
    """re-run the cycle a replay file describes (kinds e2e-*): same cycle number, seed and parameters"""
    import re
    line = d["session"][-1]
    m = re.match(r"(\S+) (\d+) seed (\d+) (\{.*\})$", line)
    if not m:
        print("cannot parse", line)
        return 2
    tag, n, seed, sample = m.group(1), int(m.group(2)), int(m.group(3)), json.loads(m.group(4))
    race = tag == "startup-cycle"
    ok, binary, err = build_binary(race=race)
    if not ok:
        print("build failed:", err[-300:])
        return 2
    if tag in ("settings-cycle", "settings-error-cycle"):
        import e2e_e2esettings          # C17 at the started collector (imports this module)
        res = e2e_e2esettings.replay_cycle(tag, n, seed, binary)
    elif tag == "shutdown-cycle":
        res = cycle(n, seed, binary, sample.get("pattern"))
    elif tag == "stalled-stop":
        res = stall_cycle(n, seed, binary)
    elif tag == "stalled-stop-witness":
        ws = [dict(w, repeat=None) for w in corpus_stalls(d.get("property", "C15")) for _ in range(int(w.get("repeat", 1)))]
        res = stall_cycle(1000 + n, seed, binary, ws[n] if n < len(ws) else None)
    elif tag in ("early-stop", "early-stop-witness"):
        res = early_stop_cycle(n if tag == "early-stop" else 1000 + n, seed, binary, {k: sample[k] for k in ("proto", "signal", "offset_s", "stall_s") if k in sample})
        remove_big_cache_files()
    elif tag in ("startup-stop", "startup-stop-witness"):
        # the window is microseconds to milliseconds wide: the same parameters are run up to 16 times, the first failure is shown
        for _ in range(16):
            res = startup_stop_cycle(n if tag == "startup-stop" else 1000 + n, seed, binary,
                                     {k: sample[k] for k in ("signal", "trigger", "offset_ms", "stale_pid", "verbose") if k in sample})
            if res[1].startswith("fail"):
                break
        remove_small_cache_files()
    elif tag in ("same-pid", "same-pid-witness"):
        res = same_pid_cycle(n if tag == "same-pid" else 1000 + n, seed, binary, {k: sample[k] for k in ("signal",) if k in sample})
    elif tag == "startup-cycle":
        res = startup_cycle(n, seed, binary, {k: sample[k] for k in ("elements_file", "variant", "ext_id", "ext_type") if k in sample})
    elif tag == "redefinition-cycle":
        res = redefinition_cycle(n, seed, binary, int(sample.get("workers", 4)))
    elif tag == "traffic-cycle":
        import e2e_e2etraffic                     # C01 / C02 / C13: traffic cycles (a module of their own, importing this one)
        return e2e_e2etraffic.replay(n, seed, sample, d.get("property"))
    else:
        print("unknown e2e cycle", tag)
        return 2
    print("cycle  :", line[:300])
    print(" result:", res[0], "|", res[1][:600])
    print(" sample:", json.dumps(res[2]))
    return 1 if res[1].startswith("fail") else 0


if __name__ == "__main__":
    ok, binary, err = build_binary()
    print(ok, err[-300:])
    for i in range(int(sys.argv[1]) if len(sys.argv) > 1 else 3):
        print(cycle(i, 1, binary))
