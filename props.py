"""Property registry: one file per claimed property under propdefs/ (SPEC = what the check builds and
runs, budgets per tier; META = the MANIFEST text)."""
import importlib.util, os, glob

PROPS, META = {}, {}
for _p in sorted(glob.glob(os.path.join(os.path.dirname(os.path.abspath(__file__)), "propdefs", "C*.py"))):
    _id = os.path.basename(_p)[:-3]
    _s = importlib.util.spec_from_file_location("propdefs." + _id, _p)
    _m = importlib.util.module_from_spec(_s)
    _s.loader.exec_module(_m)
    if getattr(_m, "SPEC", None) is not None:
        PROPS[_id] = _m.SPEC
    META[_id] = getattr(_m, "META", {})
